"""Per-property configuration of the check driver: level, evidence rule text,
assumptions, budgets, shard split between the two build profiles, and the floor
counters below which a run is INCONCLUSIVE rather than "held"."""

COMMON_ASSUMPTIONS = [
    "the harness crate (model, order table from Perl's UCD 14, refparse, MonFile) is correct; it is self-checked by `cfbmon selftest` and by the synth/refparse round trip",
    "rustc/std behave as documented; cfb is 100% safe Rust",
    "verdict covers only the executions of this run (listed in coverage.counters)",
]

PROPS = {}

PROPS["C01"] = {
    "level": "exploration",
    "rule": "case = one seeded history (10-80 steps quick, 20-300 thorough) of create/overwrite/remove/recursive/"
            "query/metadata/reopen steps over a 57-name pool with case variants and respelled paths, executed on the real "
            "crate and the abstract tree model side by side, full dump compared after every step group; "
            "non-trivial = the history contains >= 1 removal and >= 1 stream write >= 4096 bytes; distinct = FNV-64 of "
            "(version, step list). Eight shards first run one wide scenario each (a storage with 70-1330 children created in ascending / descending / outside-in / random order - a chain-shaped sibling tree, since the crate does not rebalance: listing, lookups, contents, removals of the deepest / shallowest / middle entries, reopen in both modes, new names on the reopened object, remove_storage_all)",
    "assumptions": COMMON_ASSUMPTIONS + [
        "paths returned by queries are compared case-insensitively (the library echoes the query spelling for the prefix)",
        "storage times set from the wall clock are adopted on first observation and must then stay constant",
    ],
    "checked_share": 0.7,
    "quick": {"budget_s": 20},
    "thorough": {"budget_s": 300},
    "floors": {
        "quick": {"evaluations": 2000, "removal_children.2": 100, "dumps_compared": 20000, "reopen.Strict": 50, "wide.model_scenarios_passed": 8},
        "thorough": {"evaluations": 20000, "removal_children.2": 1000, "dumps_compared": 200000},
    },
}

PROPS["C02"] = {
    "level": "exploration",
    "rule": "case = one seeded mutating history; a crash point = every boundary between API calls at which no handle holds "
            "unflushed data; at each, the MonFile bytes taken WITHOUT flush are reopened permissive and strict and the full dump "
            "compared with model and live object; 15% of crash points fork the next 5-15 operations onto the reopened file; a fifth of the histories start from a synthesised foreign layout; four shards run a large scenario instead (v3 past the first DIFAT sector - thorough: the second -, v4 past 1024 sectors, v4 past 1024 mini sectors and 32 directory entries) with a crash point at every new FAT / MiniFAT / directory sector (in quick the second and third DIFAT sectors are reached by one 17 MB set_len at the end); six shards first run the beyond-4-GiB scenario on a sparse store (five version 4 variants around 2^32, one version 3 stream of 2 GiB and a little), one shard a storage with 33100 children (more than 8192 directory sectors) with removals and creations among the last entries. "
            "One quiescent point in thirty runs a scattered-patches episode (one handle with a warm window patches a scratch stream in several places in no particular order between two flushes; the handle and the stored bytes must both show the patched content). non-trivial = history of >= 5 steps that was not abandoned; distinct = FNV-64 of (version, step list)",
    "assumptions": COMMON_ASSUMPTIONS + ["only logical results are compared after a reopen (free lists are rebuilt in index order, so byte images may legitimately differ)"],
    "checked_share": 0.6,
    "quick": {"budget_s": 20},
    "thorough": {"budget_s": 300},
    "floors": {
        "quick": {"scattered_patch_episodes_checked": 300, "crash_points": 50000, "forks": 5000, "hdr_change.num_fat_sectors": 100, "hdr_change.num_minifat": 1000, "hdr_change.first_minifat": 500,
                  "large_scenarios": 4, "huge.scenarios_passed": 5, "large_scenario.crash_points_past_second_difat_sector": 1, "large_scenario.crash_points_past_third_difat_sector": 1, "wide.persist_scenarios_passed": 1, "large_scenario.crash_points_with_difat_sector": 10, "large_scenario.variant1.crash_points": 4, "large_scenario.variant3.crash_points": 6},
        "thorough": {"crash_points": 500000, "forks": 50000},
    },
}

PROPS["C03"] = {
    "level": "exploration",
    "rule": "case = one seeded history (or, for case 0 of each shard, a large scenario: v3 image with a DIFAT sector / many small "
            "streams / v4 with several FAT sectors / v3 with more DIFAT growth / v4 with many small streams); after EVERY successful step the raw bytes are judged "
            "by the independent rule checker (refparse.rs, about 60 rules). Eight shards first run a wide scenario (chain-shaped sibling tree of 70-1330 children: rules after creation, after each removal, after a reopen followed by 12-40 new entries - a new directory sector in v4 -, after remove_storage_all); one case in twenty is a seesaw history (a regular stream grows and shrinks by single sectors while other chains are begun and extended in between); one history in five goes on from a well-formed file of another writer (synthesised: red nodes, directory gaps, permuted sectors). non-trivial = history with >= 5 steps and >= 1 removal; "
            "distinct = FNV-64 of (version, step list)",
    "assumptions": COMMON_ASSUMPTIONS + [
        "tolerated, counted as slack not violations: mini-stream container / MiniFAT chain longer than the root size needs; root start sector kept when the mini stream is empty",
        "red-black balance (black height) is not demanded: the property asks for a search tree without red-red edges",
    ],
    "checked_share": 0.6,
    "quick": {"budget_s": 22},
    "thorough": {"budget_s": 300},
    "floors": {
        "quick": {"images_checked": 100000, "images_with_difat_sector": 1, "images_with_two_difat_sectors": 1, "images_with_three_difat_sectors": 1, "seesaw_cases": 1000, "start.foreign_layout": 3000, "large_scenario.1": 1, "large_scenario.2": 1, "large_scenario.4": 1, "wide.rules_scenarios_passed": 8},
        "thorough": {"images_checked": 1000000, "images_with_difat_sector": 2},
    },
}

PROPS["C06"] = {
    "level": "exploration",
    "rule": "case = one seeded call script (20-120 calls quick, 40-300 thorough) on one handle: read/read_exact/fill_buf+consume/"
            "write/write_all/seek (18 argument classes incl. i64::MIN, i64::MAX, u64::MAX; seek_relative for half of the relative seeks)/set_len (incl. lengths no compound file can hold: 1 << 45 ... u64::MAX must be refused without effect)/flush/position/len; read_vectored for a third of the raw reads, read_to_string for half of the read_to_end calls (streams that are UTF-8 text end to end are generated), the position after a read_exact that ran into the end must be the end (as for Cursor<Vec<u8>>); one script in sixteen ends with a handle that outlives its compound file; replayed "
            "under 3 of the 12 max_buffer_size x 2 version configurations, each checked call by call against a Vec<u8>+cursor model "
            "(Read/Write contracts for raw calls); exact-count-only scripts must give identical traces under all configurations; "
            "fresh-handle and reopen readbacks every 10-20 calls; a quarter of the scripts run on a stream of a synthesised foreign file whose unowned bytes (rest of the final sector, free sectors) hold garbage; five shards first run the beyond-4-GiB scenario. every script is non-trivial (>= 20 calls); distinct = (script seed, initial length)",
    "assumptions": COMMON_ASSUMPTIONS + ["raw read/write/fill_buf are checked against the std Read/Write/BufRead contracts, not an exact count",
                                         "position after a failed read_exact is unspecified by std and only required to lie in [pos, len]"],
    "checked_share": 0.7,
    "quick": {"budget_s": 20},
    "thorough": {"budget_s": 300},
    "floors": {
        "quick": {"orphan_handle_scripts_with_exhausted_window": 20, "scripts": 3000, "seek.end_i64min": 100, "seek.cur_i64min": 100, "seek.start_u64max": 100, "seek.end_i64max": 100, "seek.cur_i64max": 100,
                  "scripts_big": 10, "differential_scripts_compared": 1000, "fresh_handle_readbacks": 10000, "huge.scenarios_passed": 5, "start.foreign_dirty_slack": 5000, "orphan_handle_scripts": 3000},
        "thorough": {"scripts": 30000, "scripts_big": 300},
    },
}

PROPS["C07"] = {
    "level": "exploration",
    "rule": "case = one seeded history with up to 6 long-lived handles on different streams interleaved with removals (steered, by the "
            "independent parser's view of the sibling trees, onto entries with two children while handles sit on their in-order "
            "predecessor / successor / parent), creations reusing the freed slot, overwrites/resizes of other streams (payloads include runs of zeros covering whole aligned sectors, written over non-zero data; the root carries a CLSID and state bits in two cases of three; a third of the handles are opened under a letter-case variant, half are dropped dirty instead of flushed; a third of the histories go on from the reopened bytes after the sibling trees were repainted with a legal colouring that has red nodes; one step in forty is an episode on scratch streams: a listing in progress while a handle grows a stream, or create_stream over a stream with a live handle while a lower directory slot is free); per-step "
            "len/position check, and at checkpoints (all handles flushed) the full dump through fresh lookups AND through the "
            "independent parser is compared with the model. One step in forty is a handle-after-removal episode: a handle (with or without unwritten changes) is used again - flush, drop, set_len, write - after its stream was removed and the freed directory slot was left free or taken by a new stream or storage; its own answers are not judged, every other object must be untouched, live and in the stored bytes. non-trivial = history with >= 1 two-child removal; distinct = FNV-64 of steps",
    "assumptions": COMMON_ASSUMPTIONS + ["in the random part of a history a stream with a live handle is not removed or overwritten; removal and re-creation under a live handle are exercised by dedicated episodes in which the old handle's own results are not judged - its stream is gone - only that it answers and that nothing else changes"],
    "checked_share": 0.6,
    "quick": {"budget_s": 20},
    "thorough": {"budget_s": 300},
    "floors": {
        "quick": {"handles_used_after_removal": 1000, "start.repainted_red_nodes": 3000, "two_child_removals": 5000, "two_child_removal_with_handle_on.predecessor": 1000, "creations_reusing_slot_with_live_handles": 5000,
                  "handle_ops_after_slot_reuse": 5000, "checkpoints": 5000, "huge.scenarios_passed": 5, "listings_across_a_write": 10000, "recreations_under_a_handle": 10000},
        "thorough": {"two_child_removals": 50000, "two_child_removal_with_handle_on.predecessor": 10000},
    },
}

PROPS["C08"] = {
    "level": "exploration",
    "rule": "case = one seeded history over 5 stream names of create+write / remove / shrink / grow (lengths on both sides of 64, "
            "512, 4096, sector size), all payload bytes non-zero; after every growing set_len the gained range is read through the same "
            "handle, after flush through a reopen in both modes, and must be all zero; a stale byte is classified by provenance; one in ten steps keeps a single handle open across long write / shrink / write at the new end / grow, or (a third of those) reads a little near the start, shrinks and grows with the position inside what remains and reads the gained bytes through the still-warm window; a third of the histories start from a synthesised foreign file with garbage behind every stream end and in all free (mini) sectors; one step in 25 shrinks a scratch stream through a second handle and grows it through the stale first one (gained bytes = everything beyond the real end); a quarter of the histories run on a store that grants reads and writes only in part. "
            "non-trivial = history containing >= 1 checked grow; distinct = FNV-64 of steps",
    "assumptions": COMMON_ASSUMPTIONS,
    "checked_share": 0.6,
    "quick": {"budget_s": 15},
    "thorough": {"budget_s": 240},
    "floors": {
        "quick": {"grows_checked": 20000, "grow.mini->mini": 5000, "grow.mini->regular": 3000, "grow.regular->regular": 500, "grow.empty->mini": 1000, "start.foreign_dirty_slack": 3000, "grows_after_shrink_through_another_handle": 10000, "grows_under_a_warm_window": 3000, "histories_on_a_short_io_store": 3000},
        "thorough": {"grows_checked": 200000},
    },
}

PROPS["C09"] = {
    "level": "exploration",
    "rule": "case = one seeded sibling-set history over two storages: a per-case pool of 6-14 random names (1-40 UTF-16 units, lengths "
            "30/31/32 emphasised, ASCII / Latin-1 / Greek / Cyrillic / exceptional upper-casing / caseless BMP >= U+E000 / supplementary "
            "characters, U+0000 inside and at the end of names, titlecase digraphs, polytonic Greek, forbidden characters injected) inserted in ascending, descending, middle-first or random order; creations, "
            "removals, lookups under case variants and re-spelled paths, listings, root-escaping paths; five monitors (validation with "
            "no write event, case-insensitivity, findability sweep, order via order.rs + on-disk BST via refparse, path normaliser). "
            "non-trivial = >= 10 steps; distinct = FNV-64 of steps",
    "assumptions": COMMON_ASSUMPTIONS + [
        "alphabets are restricted to characters whose simple upper-casing is stable across Unicode versions; cased supplementary characters appear only in one case (the format folds per code unit, the library per scalar; the property does not pin that)",
        "the names '.' and '..' are path syntax and are not used as object names",
    ],
    "checked_share": 0.6,
    "quick": {"budget_s": 18},
    "thorough": {"budget_s": 240},
    "floors": {
        "quick": {"evaluations": 20000, "invalid_name_no_effect_checked": 50000, "verbatim_checked": 100000, "name_units.31": 10000, "name_units.32": 10000,
                  "lookup.variant.present": 5000, "findability_sweeps": 50000, "create_storage_all_deep.invalid": 5000, "order_checks": 20000, "escaping_paths": 20000, "create_name.has_supplementary.valid": 20000},
        "thorough": {"evaluations": 100000},
    },
}

PROPS["C10"] = {
    "level": "exploration",
    "rule": "case = one seeded history with 50% of the calls aimed at a refusal class (missing parent, parent is a stream, wrong type, "
            "existing name incl. case variant, non-empty storage, root, escaping path, invalid name, multi-step create_storage_all / "
            "remove_storage_all, out-of-range seek with a dirty buffer), long-lived dirty handles mixed in; for every call the model "
            "predicts as refused and that is refused: zero write events on the backing store, bytes identical, handle len/position "
            "unchanged, and all later dumps equal a model that never saw the call; a call refused with NotFound / AlreadyExists / InvalidInput although the model expected success must leave the bytes unchanged too; eight shards first run a wide scenario (storage with 1023-1500 children in a chain: five predicted refusals, then remove_stream of the deepest and a mid-chain entry and remove_storage_all, each judged if refused); one shard grows a version 3 stream to 2 GiB - 1, 2 GiB, 2 GiB + 1000 on a sparse store (a refusal there must leave the store unchanged). One quiescent point in 25 runs a stale-handle episode: two handles opened together on a scratch stream, a third resizes it and goes away, one of the two makes out-of-range seeks (store untouched, len() unmoved after each), then both are asked the same questions and must answer alike. Refusal steps also come as refused / obstacle repaired / same call again sequences. A set_len with a length no compound file can hold (refused with InvalidInput) is judged like the other refusals, also when the handle has unwritten changes. non-trivial = >= 3 refusals checked; distinct = FNV-64 of steps",
    "assumptions": COMMON_ASSUMPTIONS,
    "checked_share": 0.6,
    "quick": {"budget_s": 18},
    "thorough": {"budget_s": 240},
    "floors": {
        "quick": {"stale_handle_refusal_episodes": 3000, "refusals_checked": 300000, "refusals_multi_step": 30000, "refusals_with_dirty_handle_present": 20000,
                  "refusal.seek | refuse:out_of_range+dirty_buffer": 2000, "refusal.create_storage_all | refuse:invalid_name": 10000,
                  "refusal.create_storage | refuse:parent_is_stream": 5000, "refusal.remove_storage | refuse:not_empty": 5000, "wide.noeffect_scenarios_passed": 8, "wide.refusals_checked": 30, "huge.v3_limit_probes": 1},
        "thorough": {"refusals_checked": 3000000},
    },
}

PROPS["C15"] = {
    "level": "exploration",
    "rule": "case = random prefix history (fill levels steered to whole-sector multiples of mini sectors, sometimes emptied) followed "
            "by 5-10 repetitions of one of 10 net-zero cycle templates (create-write-remove, nested storages + remove_storage_all, "
            "grow-then-shrink, overwrite with same content, several streams created then removed in same/reverse order, truncate-and-"
            "rewrite, rewrite across the 4096 cutoff through a new handle, append across the cutoff and shrink back, large -> small -> "
            "remove, storage + state bits, so many small streams that the MiniFAT needs a second and third sector - version 3: 3-8, version 4: 17-36 streams of 3000-4090 bytes - all removed again, half of these with a lenient reopen in every repetition; one case in 30 - thorough 12 - with megabyte sizes: streams of 2.2-6 MB, growth steps of 1-2.6 MB), a quarter of them with a reopen at the end of every repetition; the model certifies the "
            "cycle is net-zero, then the length of the backing store after every repetition r >= 3 must equal that after repetition 2 "
            "('unchanged from the second repetition on'); in addition, from the second repetition on, the image just before every write that extends the file must not list a free sector in its FAT, and a step that extends the mini stream must have used up every mini sector that was free before it ('space released is reused by later allocations'). non-trivial = cycle certified net-zero and "
            "measured; distinct = FNV-64 of steps",
    "assumptions": COMMON_ASSUMPTIONS,
    "checked_share": 0.5,
    "quick": {"budget_s": 15},
    "thorough": {"budget_s": 240},
    "floors": {
        "quick": {"cycles_checked": 30000, "cycles.template0.mini": 1500, "cycles.template0.regular": 500, "cycles.template1.mini": 1500,
                  "cycles.template2.mini": 1500, "cycles.template4.regular": 500, "cycles.template7.mini": 500, "cycles.template7.regular": 300, "cycles.template8.mini": 500, "cycles.template9.mini": 500, "cycles.template12.mini": 200, "prefix.emptied": 5000, "prefix.fill_steered": 10000, "cycles_megabyte_sized": 500, "growth_events_inspected": 200, "mini_growth_events_inspected": 1500},
        "thorough": {"cycles_checked": 300000},
    },
}

PROPS["C17"] = {
    "level": "exploration",
    "rule": "case = one seeded history with 45% metadata calls (random / nil / all-ones CLSIDs, random state words, times from 12 "
            "classes: epoch +-{0,1,99,100,101 ns}, sub-100ns fractions, 1601 exactly +-, year 1000, now, 9999, the tick limit +-, year 1e5, "
            "random) on 5-80 entries interleaved with structural changes; checks: entry/listing/walk immediately (model with independent "
            "i128 tick arithmetic), reopen in both modes, raw bytes through the independent parser (GUID field layout, tick value), "
            "clock window of new storages and touch; a fifth of the histories start from a synthesised foreign file whose unallocated directory entries carry stale CLSID / state / time fields; one setter in twelve is preceded by a failed attempt on a store that fails one underlying call (the same setter, then repeated by the step; or, for storages, a setter of another field that is not repeated and whose visible outcome is adopted). The refused underlying call is any of the 94 seeks and writes of an entry rewrite, so the new value may already be in the file when the call fails. Right after a setter that failed without having changed a byte of the file, lookups are compared with what the stored bytes reopen to (both must agree); after half of the failed setters the same field is set again to the value that lookups report (the caller puts it back): that call must return Ok and leave lookups and the stored bytes in agreement on that value. non-trivial = >= 3 metadata calls; distinct = FNV-64 of steps",
    "assumptions": COMMON_ASSUMPTIONS + ["set_modified_time / touch on the root changes the root's time (code behaviour; the doc comment of touch says otherwise)",
                                         "a clock window sample is skipped if the wall clock stepped backwards between the two readings"],
    "checked_share": 0.6,
    "quick": {"budget_s": 15},
    "thorough": {"budget_s": 240},
    "floors": {
        "quick": {"failed_setter_live_vs_stored_checked": 300, "live_checks": 200000, "reopen_checks": 50000, "raw_byte_checks": 50000, "clock_window_checks": 10000,
                  "time_class.before_1601_saturates": 2000, "time_class.beyond_tick_limit_saturates": 2000, "time_class.off_grid_before_1970": 5000,
                  "time_class.off_grid_after_1970": 5000, "stream_touch_noop_checked": 300, "start.foreign_dirty_free_slots": 2000, "setter_first_attempt_failed": 5000, "other_setter_failed_and_not_repeated": 2000},
        "thorough": {"live_checks": 2000000},
    },
}

PROPS["C18"] = {
    "level": "exploration",
    "rule": "case = one explicit history (generated once against the model, exact-count calls only, storage times pinned through the "
            "API, dirty handles flushed before queries) replayed under: A in-memory, A' the same again, C in-memory with 35% shortened "
            "and 10% spuriously Interrupted underlying reads/writes, B a real std::fs::File via cfb::create (over an older, larger file "
            "left at that path) / create_with_version and re-read via cfb::open / open_rw (1 in 6 histories), D another max_buffer_size, E the other format version; per-call "
            "normalised outcomes and final dump must be identical across all, final bytes identical across A, A', B, C; the final bytes of C are also reopened through shortened / interrupted reads in both modes (dump must match); six fixed histories take a v3 file past 109 and 236 FAT sectors (DIFAT chain) under all configurations; one history in eight starts from a synthesised foreign image (red-black trees with red nodes; configurations A, A', C, a second mostly-interrupted C2, D); BufRead is used with an exact count (fill_buf, consume one byte). "
            "non-trivial = >= 10 steps; distinct = FNV-64 of steps",
    "assumptions": COMMON_ASSUMPTIONS + ["the reported 'length' of storages/root (physical mini-stream size) is not compared across buffer sizes / versions"],
    "checked_share": 0.5,
    "quick": {"budget_s": 18},
    "thorough": {"budget_s": 240},
    "floors": {
        "quick": {"histories": 10000, "configurations_compared": 40000, "real_files_written": 1000, "underlying_calls_shortened": 10000000,
                  "underlying_calls_interrupted": 3000000, "histories_with_difat_chain": 6, "reopens_through_perturbed_reads": 20000, "histories_on_a_foreign_start_image": 1500},
        "thorough": {"histories": 100000},
    },
}

PROPS["C04"] = {
    "level": "exploration",
    "rule": "case = one random logical tree (0-70 objects, names incl. exceptional upper-casing and supplementary characters, sizes "
            "from the boundary set, CLSIDs/state/times) written by the independent synthesiser under a random legal layout (sector "
            "roles permuted with FREE sectors in between, fragmented non-monotone chains, directory entries in random slots with gaps, "
            "textbook red-black sibling trees, permuted mini sectors, FAT sectors anywhere, garbage in all unowned bytes (a third), one or two spare FAT sectors (two fifths; such files are then grown until the library appends a FAT sector of its own), other header minor versions, red tops of sibling trees where that creates no red-red edge, a partial final sector (file ends after the last used byte), a spare DIFAT sector at the end of the chain (such files are grown by 140 KB and the stored bytes reopened), opened with several buffer sizes, one > 109-FAT-sector DIFAT-chain image per "
            "shard; on two shards a version 4 file of 1-4.8 GB built sector by sector on the sparse store - 237-436 or 1133-1152 FAT sectors placed at every third sector, one or two DIFAT sectors with more than 127 entries in use, second directory sector and a scrambled stream chain in the last sectors - opened in both modes, read, extended into its free sectors and past its FAT, and reopened); must pass the synth/refparse self-check (else harness error), then open strict+permissive with dump == tree and "
            "case-variant lookups, then a 10-30 step history with the C01+C02+C03 monitors. One case in twelve has no small stream at all and a root entry whose starting sector field holds 0 or the first sector of a stream (meaningless without a mini stream); a third of the other layouts do the same when they happen to have no mini stream. non-trivial = image with >= 3 objects "
            "accepted in both modes; distinct = FNV-64 of the image bytes",
    "assumptions": COMMON_ASSUMPTIONS + ["synth.rs writes only spec-valid layouts (enforced per image by refparse's rule set and logical decode)"],
    "checked_share": 0.6,
    "quick": {"budget_s": 20},
    "thorough": {"budget_s": 300},
    "floors": {
        "quick": {"layout.no_mini_stream_stale_root_start": 100, "opened.Strict": 8000, "opened.Permissive": 8000, "layout.red_nodes": 5000, "layout.dir_gaps": 5000, "layout.fragmented_chain": 3000,
                  "layout.out_of_order_fat": 5000, "layout.free_sectors_inside": 2000, "layout.difat_chain": 8, "mutated_afterwards": 8000, "layout.spare_fat_sectors": 1500, "layout.dirty_slack_and_free_sectors": 1500, "spare_fat_filled_past_coverage": 800, "layout.partial_final_sector": 15, "spare_difat_grown_and_reopened": 1, "sparse_foreign.scenarios_passed": 2, "sparse_foreign.modified_and_reopened": 2},
        "thorough": {"opened.Strict": 100000, "layout.difat_chain": 50, "sparse_foreign.scenarios_passed": 2},
    },
}

PROPS["C05"] = {
    "level": "exploration",
    "rule": "case = one hostile byte string: a valid base image (library-written or synthesised foreign layout, pool of 24 per shard) with "
            "1-4 structure-aware field corruptions (every header field, DIFAT/FAT/MiniFAT cells -> self/other chain/out of range/special "
            "values, directory name/type/colour/links/start/size), or (one input in ten) a compound deviation - an orphaned entry adopted as a stream's child, a chain returning to its first sector under a huge length, a chain ending in FREESECT, two streams sharing a chain, a tail pointing into another chain -, or truncated/extended/bit-flipped, or a repo fuzz seed, or random "
            "bytes behind a valid header, or a DIFAT amplification input; opened permissive and strict, then the read-only battery (walk, "
            "listings, lookups, every stream read in odd chunks, fill_buf, read_to_end, extreme seeks; lookups, listings and open_stream *below* each of the first 40 objects the walk showed, streams included). Monitors: panic hook, CPU-time "
            "watchdog (10 s/case, isolated 10x confirmation), I/O step budget per API call, peak heap <= 8 MiB + 4096*len. Four shards first open and walk a library-written file with a chain-shaped directory (2500-9000 children, thorough up to 30000) on a thread with a 256 KiB stack. "
            "non-trivial = input that got past the header check; distinct = FNV-64 of the input",
    "assumptions": COMMON_ASSUMPTIONS + [
        "'never loops forever' is restated as bounded progress: CPU budget 10 s (unchanged tree: < 10 ms) and <= 64*(len/64+8)^2 underlying I/O calls per API call",
        "'memory proportional to the input' is restated as peak heap <= 8 MiB + 4096 x input length (the format lets a 4-byte DIFAT cell name a whole FAT sector)",
    ],
    "checked_share": 0.6,
    "cpu_budget_s": 10,
    "quick": {"budget_s": 20},
    "thorough": {"budget_s": 300},
    "floors": {
        "quick": {"evaluations": 200000, "accepted.Permissive": 50000, "accepted.Strict": 20000, "rejected_after_header": 200000, "streams_opened": 200000, "lookups_below_listed_objects": 200000,
                  "input.amplification": 3000, "input.repo_seed": 5000, "mutation.FatCell": 10000, "mutation.MiniFatCell": 10000, "mutation.DirStart": 10000, "mutation.size": 10000, "mutation.compound": 20000, "wide.hostile_scenarios_passed": 4},
        "thorough": {"evaluations": 2000000},
    },
}

PROPS["C11"] = {
    "level": "exploration",
    "rule": "case = one damaged input (C05's corruptor with emphasis on what permissive open never walks: stream start sectors/sizes, "
            "root mini stream, MiniFAT/FAT cells, sibling links; compound deviations in one input of ten) that permissive open ACCEPTS, followed by 3-12 mutating calls "
            "(create, write 0..70000 bytes, set_len to boundary sizes, overwrite, remove, remove_storage_all, metadata, flush, reads). "
            "One case in sixteen is the alias episode: a library-written file (v3 / v4, 5 - 40 small streams) whose stream /victim is made to name the MiniFAT chain, "
            "the directory chain or the mini stream container as its data; the stream is shortened by whole sectors, emptied, overwritten or removed, and then small streams "
            "(the last ones first) are removed, resized, appended to, created, storages created, the file flushed. "
            "Monitors: panic hook with location (handles are leaked on unwind so that the first panic is the one reported), CPU-time "
            "watchdog 5 s/case with isolated 10x confirmation, allocation cap. non-trivial = accepted input; distinct = FNV-64 of the input",
    "assumptions": COMMON_ASSUMPTIONS + ["'never hangs' is restated as a CPU budget of 5 s per case (unchanged tree: < 10 ms), confirmed at 50 s in isolation"],
    "checked_share": 0.6,
    "cpu_budget_s": 5,
    "quick": {"budget_s": 22},
    "thorough": {"budget_s": 300},
    "floors": {
        "quick": {"accepted_by_permissive_open": 300000, "op.remove_stream": 100000, "mutation.DirStart": 50000, "mutation.MiniFatCell": 50000, "mutation.FatCell": 50000, "mutation.size": 50000, "mutation.compound": 30000, "alias.episodes": 8000, "alias.op.victim.set_len": 4000, "alias.op.remove_stream": 10000},
        "thorough": {"accepted_by_permissive_open": 3000000, "alias.episodes": 80000},
    },
}

PROPS["C16"] = {
    "level": "exploration",
    "rule": "part A (every 3rd case): an input from C05's generator (valid bases, benign and hostile corruptions); whenever strict open "
            "accepts it, permissive must accept it and both dumps (tree, metadata, bytes) must be identical. part B: a valid base "
            "(library-written, synthesised foreign layout, synthesised with 1-2 DIFAT sectors, library-written with a DIFAT sector) with "
            "1-4 of the 18 documented deviations injected at a random applicable place with varied values (whole / partial zero padding, unmarked cells holding special markers, zero or stale sector numbers, root names with forbidden characters; DIFAT-related ones steered into pairs): "
            "permissive open must give exactly the undamaged file's dump and strict open must reject; two images of three are opened with a max_buffer_size, the two builder calls in either order. One image in twelve is also written to a scratch file and opened through the path-based entrances (cfb::open / open_rw, OpenOptions with and without strict(), open / open_rw): verdict and content must equal those of open_with on the same bytes. non-trivial = part A input accepted "
            "by strict, or part B input judged; distinct = FNV-64 of the input bytes",
    "assumptions": COMMON_ASSUMPTIONS + [
        "header first_difat_sector = FREESECT is accepted by BOTH modes (header.rs documents it without tying it to validation), so it is not in the must-reject list",
        "the physical 'length' reported for storages/root is not compared between modes",
    ],
    "checked_share": 0.5,
    "quick": {"budget_s": 22},
    "thorough": {"budget_s": 300},
    "floors": {
        "quick": {"path_based.Strict.accepted": 30, "path_based.Strict.rejected": 300, "path_based.Permissive.accepted": 300, "partA.strict_accepted_and_compared": 800, "partA.strict_accepted_corrupted_input": 300, "partB.singles_checked": 3000, "partB.combinations_checked": 2500,
                  "partB.zero_padded_fat.single": 150, "partB.zero_padded_difat.single": 60, "partB.fat_sector_unmarked.single": 150, "partB.difat_sector_unmarked.single": 60,
                  "partB.difat_chain_ends_free.single": 60, "partB.adjacent_red_nodes.single": 100, "partB.name_not_terminated.single": 100, "partB.wrong_root_name.single": 100,
                  "partB.stream_clsid.single": 100, "partB.stream_ctime.single": 100, "partB.stream_mtime.single": 100, "partB.storage_start.single": 80, "partB.storage_size.single": 80,
                  "partB.num_fat_wrong.single": 150, "partB.num_difat_wrong.single": 150, "partB.num_minifat_wrong.single": 100, "partB.v3_num_dir_nonzero.single": 60,
                  "partB.minifat_overlong.single": 80, "partB.zero_padded_difat.combined": 250, "partB.base.library-written with a DIFAT sector": 400, "partB.base.library-written, mini stream emptied": 150},
        "thorough": {"partB.singles_checked": 100000, "partB.combinations_checked": 100000},
    },
}

PROPS["C12"] = {
    "level": "fault_enumeration",
    "exhaustive": True,
    "rule": "workload = (library-written image with mini and regular streams in both versions, read-only call script: open, walk, lookups, "
            "per stream ~14 buffered reads in odd chunk sizes / fill_buf+consume / forward and backward seeks through a 1024-byte buffer, "
            "read_to_end) on a Read+Seek-only backend; the fault-free run counts the N underlying read/seek calls; then a one-shot failure "
            "is injected at EVERY position k < N (kinds Other, UnexpectedEof, TimedOut, Interrupted, plus 'short then fail', plus a burst of three consecutive TimedOut / WouldBlock failures at every position); after a failed read the "
            "script looks behind the position (seek back, read, seek forward) and then retries the call up to 3x; pairs (k1,k2) exhaustively when N <= 150 else 1500 (quick) / 20000 (thorough) sampled pairs. One "
            "workload per shard in quick (16), 6 per shard in thorough. evaluations = faulty runs; distinct_nontrivial = distinct "
            "(workload, position, variant) triples; exhaustive = every workload's single-fault positions were all visited",
    "assumptions": COMMON_ASSUMPTIONS + ["raw read counts after a fault may differ from the fault-free run (only exact-valued calls are compared with it); bytes are checked against the stream's true content at the model position"],
    "checked_share": 0.5,
    "quick": {"budget_s": 40},
    "thorough": {"budget_s": 400},
    "floors": {
        "quick": {"exhaustive_workloads": 16, "positions_visited": 10000, "runs.single_fault": 30000, "runs.short_then_fail": 10000, "runs.fault_pair": 10000, "runs.burst_of_three": 10000, "retries_that_succeeded": 30000},
        "thorough": {"exhaustive_workloads": 90},
    },
}

PROPS["C13"] = {
    "level": "fault_enumeration",
    "exhaustive": True,
    "rule": "workload = mutating script on a fault-injecting backend (create storage/streams, writes through two handles with 1024-byte "
            "buffers so that write-backs happen inside write/seek/read/set_len/flush, migration across 4096, set_len, reopen and "
            "overwrite, remove, metadata, CompoundFile::flush; handles always flushed explicitly); a one-shot failure is injected at "
            "EVERY position of the underlying write calls, of the seek calls and of the flush calls (every third write fault as 'short "
            "write then fail'), plus a 'store full' sweep (from the k-th write on every underlying write returns Ok(0)); each failed API call is retried up to 2x; every faulty run is limited to 50x the fault-free underlying call count + 20000 (bounded progress in logical steps). Oracles: the API call inside which the underlying call failed "
            "returns Err; no panic and no request on the (instrumented) lock that would block forever; an Ok flush implies the underlying "
            "writer was flushed after its last write; an Ok set_len shows the new length to a fresh lookup; whenever Stream::flush returns Ok a fresh handle reads back every byte accepted by earlier write "
            "calls on that handle, and so does the reopened byte image - also after a failed flush; once every failed call has succeeded on retry (and the store did not tear a write) the stored bytes must open again and hold the state bits that set_state_bits reported as set - also when the failure hit a structural call. One workload per shard in quick (four script families: two handles with migrations and write_vectored; v3 directory/FAT growth - past 128 sectors on two workloads -, truncating re-creation, set_len growth into sectors that removed streams left dirty; v4 directory growth at the 33rd entry, swept from that creation on; a prebuilt 7 MB v3 image crossing from 109 to 110 FAT sectors, swept around the crossing; a 5-KB regular stream released under the sweep - set_len(0), set_len below the cutoff, removal or truncating re-creation - followed by two more regular streams; family F: small streams that use up one MiniFAT sector exactly - 128 / 1024 mini sectors -, then a small stream under the sweep that makes the MiniFAT chain grow and the header's MiniFAT sector count change; family G: five streams, each put through one call that moves it between the mini stream and regular sectors or releases its chain - a write-back across 4096 bytes, set_len across it in both directions, set_len(0), truncating re-creation - where the call that fails is repeated only after an interlude in which another small and another large stream are created, written and flushed: they may be given whatever the failed call released and must still read back at the end; while the failed call is not yet repeated the stored-file demands are suspended). A structural call (create_storage, create_stream, remove_stream) that failed and then succeeded on retry makes the tree known again: the read-back oracles apply from then on; family H: a set_len that moves a stream to another chain or releases it fails and - in the runs that do not repeat it - the caller goes on, overwrites a few bytes inside the stream and flushes: the model carries both candidates (as before / resized) through the later writes and resizes, a fresh handle must read one of them, and from the first flush that rewrites the directory entry on the stored bytes must agree as well; its last episode is a shrink in place that fails and is not repeated, another stream created in and removed from what it released, then a set_len to a length between the two: besides 'as before' and 'resized' a third candidate is admitted there (the bytes up to the cut at the next mini sector boundary, zeros behind). When the workload started from nothing or from a file that strict mode accepts, the stored bytes must also be accepted by the library's own strict mode at every such point (every write that failed has been repeated, so no header or FAT field may still carry what a failed write left behind). Fault positions after a marker are numbered on the fault plan's own scale (calls made during the harness's paused read-backs do not count); in the runs with an odd fault position a failed set_len is not repeated (the stream must then be as before or resized, nothing else), and every position at which a set_len failed is run a second time with the other answer; at the end of a workload in which every failed call succeeded on retry, each stream that nothing touched since its flush returned Ok is read back once more through a fresh handle; six workloads per shard in thorough. evaluations = faulty runs; "
            "distinct_nontrivial = distinct (workload, kind, position); exhaustive = all positions of all four sweeps visited (family C: all positions from its marker on)",
    "assumptions": COMMON_ASSUMPTIONS + ["errors swallowed by Stream::drop are outside the property (handles are flushed explicitly, and leaked rather than dropped if that keeps failing)",
                                         "after a failed structural call (create/remove/set_len) the affected content is no longer compared; only error reporting and no-panic are judged"],
    "checked_share": 0.5,
    "cpu_budget_s": 20,
    "quick": {"budget_s": 45},
    "thorough": {"budget_s": 480},
    "floors": {
        "quick": {"exhaustive_workloads": 16, "positions.write": 8000, "positions.seek": 8000, "positions.flush": 100, "positions.full": 8000, "ok_flush_stored_file_opens": 100000, "ok_flush_stored_file_opens_strict": 100000, "ok_metadata_reopen_checked": 20000, "set_len_recovered_content_known_again": 2000, "ok_flush_after_unrepeated_failed_set_len_checked": 3000, "ok_flush_readbacks": 50000, "ok_flush_after_failed_flush_readbacks": 5000, "ok_flush_reopen_readbacks": 50000, "end_of_workload_readbacks": 100000, "positions_run_with_both_set_len_policies": 10000, "interludes_run": 1000, "structural_calls_recovered": 1000},
        "thorough": {"exhaustive_workloads": 88},
    },
}


def _miri_aux(root, harness, tier, seed, env):
    """M3 of C14: Miri schedule exploration of harness/src/bin/c14_miri.rs.  Started
    alongside the native shards; returns a callable that waits and yields a shard-style report."""
    import subprocess, re
    n = 16 if tier == "quick" else 192
    lo = (seed % 1000) * 1000
    e = dict(env)
    e["MIRIFLAGS"] = f"-Zmiri-disable-isolation -Zmiri-many-seeds={lo}..{lo + n}"
    try:
        p = subprocess.Popen(["cargo", "+nightly", "miri", "run", "--offline", "--bin", "c14_miri"], cwd=harness, env=e,
                             stdout=subprocess.PIPE, stderr=subprocess.STDOUT, text=True)
    except OSError as ex:
        return {"evaluations": 0, "inconclusive": [f"cannot start miri: {ex}"]}

    def wait():
        try:
            out, _ = p.communicate(timeout=900 if tier == "quick" else 3600)
        except subprocess.TimeoutExpired:
            p.kill()
            return {"evaluations": 0, "inconclusive": ["miri run exceeded its wall-clock limit (inconclusive, not a violation)"]}
        done = out.count("c14_miri: done")
        rep = {"evaluations": done, "counters": {"m3.miri_seeds_completed": done, "m3.miri_seeds_requested": n}, "findings": [], "inconclusive": []}
        kinds = []
        if "the evaluated program deadlocked" in out:
            kinds.append(("miri | deadlock", "Miri: the evaluated program deadlocked"))
        if "Undefined Behavior" in out:
            kinds.append(("miri | undefined behaviour", "Miri reported Undefined Behavior"))
        if re.search(r"[Dd]ata race", out):
            kinds.append(("miri | data race", "Miri reported a data race"))
        if "panicked at" in out:
            kinds.append(("miri | panic", "a thread panicked under Miri"))
        for sig, what in kinds:
            m = re.search(r"seed (\d+)", out)
            tail = out[-1800:]
            rep["findings"].append({"signature": sig, "count": 1, "detail": f"{what} (seeds {lo}..{lo+n}); output tail: {tail}",
                                    "witness": {"miri_flags": e["MIRIFLAGS"], "program": "harness/src/bin/c14_miri.rs",
                                                "regen": {"property": "C14", "tier": tier, "seed": seed, "shard": 0, "nshards": 16, "case": 0, "profile": "checked"}}})
        if not kinds and (p.returncode != 0 or done < n):
            rep["inconclusive"].append(f"miri exited with status {p.returncode} after {done}/{n} seeds without a recognised diagnosis: {out[-600:]}")
        return rep
    return wait


PROPS["C14"] = {
    "level": "exploration",
    "rule": "three monitors over the instrumented lock (hook cfg cfb_verif). M1 (1 process): single-threaded drive through every "
            "read-only method / iterator shape / handle operation on trees with left, right and child links, recording per thread the "
            "guards held at every acquisition; a request while the same thread holds a guard on the same lock is a violation (no lucky "
            "schedule needed); includes error-path scripts (every underlying call failing) and two handles on one stream, one of them stale after a truncation through the other. M2 forced (3 processes x <= 40 rounds): 2 readers + the writer thread; a reader about to re-acquire is "
            "parked between its two critical sections until a write request is outstanding, so a hazard becomes a real deadlock, "
            "certified by the wait-for state (every live worker requested-not-granted > 2 s). M2 stress (12 processes): 1-8 readers x "
            "50-400 read-only calls against 30-200 writer operations (append, flush, set_len - twice per round by 4.3-9.3 MB -, read) with random micro-delays at "
            "Request/Released; every reader observation of entry().len() must equal the directory-entry length after some whole writer "
            "operation overlapping it; every other read-only result is compared with the facts no stream operation changes (names, kinds, counts, walk shapes; nested non-ASCII paths included); the writer also appends to up to four pre-opened handles on other streams and drops them dirty while the readers run (the bytes must be there afterwards). M3: Miri (-Zmiri-many-seeds, 16 seeds quick / 192 thorough) on a 2-reader + writer program. "
            "evaluations = rounds + Miri seeds; distinct_nontrivial = distinct acquisition sites (M1) + distinct grant-order prefixes (M2)",
    "assumptions": COMMON_ASSUMPTIONS + [
        "'all calls complete' is decided on a recorded all-waiting state held for 2 s, never on a wall-clock timeout alone",
        "handles are !Send: the writer is the thread that created them",
    ],
    "checked_share": 1.0,
    "aux": [_miri_aux],
    "quick": {"budget_s": 25},
    "thorough": {"budget_s": 300},
    "floors": {
        "quick": {"m1.distinct_acquisition_sites": 8, "m1.handle_scripts": 10, "m1.two_handle_scripts": 2, "m2.dirty_handle_drops_checked": 300, "m2.spin_rounds": 15, "m1.closure_scripts": 2, "m2.forced_rounds": 60, "m2.stress_rounds": 100, "m2.reader_results_checked": 20000,
                  "m3.miri_seeds_completed": 16},
        "thorough": {"m2.stress_rounds": 1000, "m3.miri_seeds_completed": 192},
    },
}
