#!/usr/bin/env python3
"""Writes /verif/MANIFEST.json from tools/propcfg.py and tools/manifest_meta.py."""
import json, os, sys
ROOT = os.path.dirname(os.path.dirname(os.path.abspath(__file__)))
sys.path.insert(0, os.path.join(ROOT, "tools"))
from propcfg import PROPS
from manifest_meta import META, HOOKS, NOT_APPLICABLE

checks = []
for pid in sorted(PROPS):
    m = META[pid]
    checks.append({
        "property_id": pid,
        "quick_cmd": f"./check run {pid} --tier quick",
        "thorough_cmd": f"./check run {pid} --tier thorough",
        "evidence_file": f"/verif/evidence/{pid}.json",
        "replay_cmd_template": "./check replay {path}",
        "engine": "cfbmon",
        "level_claimed": {"category": PROPS[pid]["level"], "text": m["text"], "design_ref": m["design_ref"]},
        "level_note": m["note"],
        "technique": m["technique"],
    })
man = {
    "version": 1,
    "setup_cmd": "./check setup",
    "hooks": HOOKS,
    "engines": [{
        "name": "cfbmon", "path": "/verif/harness",
        "serves_properties": sorted(PROPS),
        "kind_free_text": "Rust harness linking the real cfb crate from /repo (path dependency, rebuilt on every check): "
                          "seeded history engine + abstract model, independent MS-CFB parser/checker/synthesiser, instrumented "
                          "fault-injecting backing store, panic/CPU/allocation guards, instrumented lock observer, Miri for C14; "
                          "python driver ./check shards, merges, classifies against known_findings.json and writes evidence",
    }],
    "checks": checks,
    "not_applicable": [{"property_id": p, "reason": r} for p, r in sorted(NOT_APPLICABLE.items()) if p not in PROPS],
    "notes": "Exit codes: 0 held, 1 VIOLATION (replay file written), 2 INCONCLUSIVE (never folded into the others). "
             "VERIF_SEED selects the seed; VERIF_BUDGET overrides the per-shard time budget (seconds).",
}
json.dump(man, open(os.path.join(ROOT, "MANIFEST.json"), "w"), indent=1)
print("MANIFEST.json written with", len(checks), "checks")
