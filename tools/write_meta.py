#!/usr/bin/env python3
"""Writes seeded/<id>/meta.json from the sub-agent's description (agent_meta.json) and
the evaluation records produced by tools/eval_seed.py.

  tools/write_meta.py <round> <final_eval_dir> [<first_eval_dir>] [ids...]

<final_eval_dir>/<id>.json   = eval_seed output with the harness as committed
<first_eval_dir>/<id>.json   = eval_seed output with the harness as it was before the
                               change was looked at (optional; decides the
                               "missed_..._before_strengthening" field)
"""
import json, os, sys

ROOT = os.path.dirname(os.path.dirname(os.path.abspath(__file__)))


ORIGIN = {
    0: "written by an independent sub-agent that saw only the property text, the list of ideas already used in earlier rounds, and a scratch worktree of /repo (nothing from /verif)",
    6: "written by an independent sub-agent that saw only the property text and a scratch worktree of /repo (nothing from /verif); asked for ordinary maintainer mistakes",
    8: "written by an independent sub-agent that saw only the property text and a scratch worktree of /repo (nothing from /verif); asked for changes in the shape of a pull request (refactoring, optimisation or small feature of 10-60 lines)",
    10: "written by an independent sub-agent that saw only the property text and a scratch worktree of /repo at 93835f2 (nothing from /verif); asked for one change placed in, or cooperating with, the code of the three latest repairs (set_minifat error, header-before-extend in allocate_mini_sector, commit_stream_chain)",
    9: "written by an independent sub-agent that saw only the property text and a scratch worktree of /repo at 8e27fed (nothing from /verif); asked for (R) two cooperating sites that each look fine alone and (S) a change in or next to code that a recent fix commit introduced or that handles a rare situation",
    7: "written by an independent sub-agent that saw only the property text, the list of functions no earlier seeded change had touched (both changes had to be placed there), and a scratch worktree of /repo (nothing from /verif)",
}


def load(path):
    try:
        with open(path) as f:
            txt = f.read().strip().splitlines()
        return json.loads(txt[-1]) if txt else None
    except (OSError, ValueError):
        return None


def main():
    rnd = int(sys.argv[1])
    final_dir = sys.argv[2]
    first_dir = sys.argv[3] if len(sys.argv) > 3 and os.path.isdir(sys.argv[3]) else None
    ids = [a for a in sys.argv[3:] if not os.path.isdir(a)]
    if not ids:
        ids = sorted(f[:-5] for f in os.listdir(final_dir) if f.endswith(".json"))
    for mid in ids:
        d = os.path.join(ROOT, "seeded", mid)
        am = load(os.path.join(d, "agent_meta.json")) or {}
        fin = load(os.path.join(final_dir, mid + ".json"))
        if not fin:
            print("no final evaluation for", mid)
            continue
        first = load(os.path.join(first_dir, mid + ".json")) if first_dir else None
        prop = mid[:3]
        caught = {p: c["signatures"] for p, c in fin.get("checks", {}).items() if c["verdict"] == "VIOLATION"}
        silent = [p for p, c in fin.get("checks", {}).items() if c["verdict"] != "VIOLATION"]
        meta = {
            "id": mid,
            "property": prop,
            "round": rnd,
            "summary": am.get("summary", ""),
            "needs": am.get("needs", ""),
            "files": am.get("files", []),
            "origin": ORIGIN.get(rnd, ORIGIN[0]),
            "confirmed_by_me": {
                "applies_to_repo_HEAD": bool(fin.get("applies")),
                "existing_suite_with_patch": fin.get("suite"),
                "demo_without_patch": fin.get("demo_without_patch"),
                "demo_with_patch": fin.get("demo_with_patch"),
                "how": "tools/eval_seed.py on a scratch worktree of /repo HEAD: git apply patch.diff; cargo test --offline; demo copied to tests/seeded_demo.rs and run with and without the patch; ./check run <prop> --tier quick; git checkout -- .",
            },
            "checks_that_report_a_violation": caught,
            "checks_run_that_stayed_silent": silent,
        }
        if first is not None:
            fc = first.get("checks", {}).get(prop, {})
            meta["first_evaluation_before_strengthening"] = {"verdict": fc.get("verdict"), "signatures": fc.get("signatures", [])[:2]}
            meta["missed_by_the_property_check_before_strengthening"] = fc.get("verdict") != "VIOLATION"
        with open(os.path.join(d, "meta.json"), "w") as f:
            json.dump(meta, f, indent=1, ensure_ascii=False)
            f.write("\n")
        print(mid, "caught by", sorted(caught) or "-", "| first:", (meta.get("first_evaluation_before_strengthening") or {}).get("verdict"))


if __name__ == "__main__":
    main()
