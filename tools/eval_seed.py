#!/usr/bin/env python3
"""Evaluate the checks against a seeded change.

  tools/eval_seed.py <patch.diff> [--props C01,C02,...|all] [--tier quick] [--demo demo.rs]

Applies the patch to /repo (git apply), confirms that it compiles and that the existing
test suite still passes, optionally confirms that the demonstration fails with the patch
and passes without, runs the requested checks, and ALWAYS undoes the patch afterwards
(git -C /repo checkout -- . ; untracked demo removed).  Prints one line per check.
"""
import json, os, subprocess, sys, time

REPO = "/repo"
ROOT = os.path.dirname(os.path.dirname(os.path.abspath(__file__)))


def sh(cmd, cwd=None, timeout=3600):
    r = subprocess.run(cmd, cwd=cwd, shell=isinstance(cmd, str), stdout=subprocess.PIPE, stderr=subprocess.STDOUT, text=True, timeout=timeout)
    return r.returncode, r.stdout


def clean():
    sh("git checkout -- . && rm -f tests/seeded_demo.rs", cwd=REPO)


def main():
    patch = os.path.abspath(sys.argv[1])
    props = "all"
    tier = "quick"
    demo = None
    suite = True
    a = sys.argv[2:]
    if "--no-suite" in a:
        a.remove("--no-suite")
        suite = False
    while a:
        if a[0] == "--props":
            props = a[1]
        elif a[0] == "--tier":
            tier = a[1]
        elif a[0] == "--demo":
            demo = os.path.abspath(a[1])
        a = a[2:]
    all_props = [c["property_id"] for c in json.load(open(os.path.join(ROOT, "MANIFEST.json")))["checks"]]
    plist = all_props if props == "all" else props.split(",")
    rc, out = sh("git status --porcelain", cwd=REPO)
    if out.strip():
        print("refusing: /repo has uncommitted changes")
        sys.exit(2)
    result = {"patch": patch, "tier": tier, "checks": {}}
    try:
        if demo:
            sh(f"cp {demo} tests/seeded_demo.rs", cwd=REPO)
            rc, out = sh("cargo test --offline --test seeded_demo 2>&1 | tail -5", cwd=REPO)
            result["demo_without_patch"] = "pass" if "test result: ok" in out else "FAIL"
        rc, out = sh(["git", "apply", patch], cwd=REPO)
        if rc != 0:
            print("patch does not apply:", out)
            result["applies"] = False
            print(json.dumps(result))
            return
        result["applies"] = True
        if demo:
            rc, out = sh("cargo test --offline --test seeded_demo 2>&1 | tail -15", cwd=REPO)
            result["demo_with_patch"] = "pass" if "test result: ok" in out else "fail"
            sh("rm -f tests/seeded_demo.rs", cwd=REPO)
        if suite:
            rc, out = sh("cargo test --offline 2>&1 | grep -E '^test result|error(\\[|:)' ", cwd=REPO)
            passed = sum(int(l.split("ok. ")[1].split(" passed")[0]) for l in out.splitlines() if l.startswith("test result: ok"))
            failed = [l for l in out.splitlines() if "FAILED" in l or l.startswith("error")]
            result["suite"] = f"{passed} passed" + (f"; problems: {failed[:3]}" if failed else "")
        for p in plist:
            t0 = time.time()
            rc, out = sh(["./check", "run", p, "--tier", tier], cwd=ROOT)
            lines = [l for l in out.splitlines() if l.startswith(("VIOLATION", "INCONCLUSIVE", "OK ", "KNOWN", "  signature"))]
            verdict = {0: "held", 1: "VIOLATION", 2: "inconclusive"}.get(rc, f"exit {rc}")
            sigs = [l.strip()[11:] for l in lines if l.startswith("  signature")]
            result["checks"][p] = {"verdict": verdict, "signatures": sigs[:4], "wall_s": round(time.time() - t0, 1)}
            print(f"{p}: {verdict} {sigs[:2]}", flush=True)
    finally:
        clean()
        # evidence files were rewritten by runs on a patched tree: restore the committed ones
        sh("git checkout -- evidence 2>/dev/null; git clean -fdq replays", cwd=ROOT)
    print(json.dumps(result))


if __name__ == "__main__":
    main()
