#!/bin/bash
# Runs every thorough check once; prints one line per property.
cd "$(dirname "$0")/.."
for p in C01 C02 C03 C04 C05 C06 C07 C08 C09 C10 C11 C12 C13 C14 C15 C16 C17 C18; do
  ./check run $p --tier thorough 2>&1 | grep -E "^(OK|VIOLATION|INCONCLUSIVE|KNOWN|  signature|  detail)" | head -12
done
